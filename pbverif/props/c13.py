"""C13 — polarisation conversions are unitary, invertible and Stokes-consistent."""

from fractions import Fraction as F
import math

from .base import PropBase, err_name
from .. import exact as X
from .. import sigs

MANIFEST = dict(
    technique="Lean 4 proof: polynomial identities on Gaussian rationals (executable model, `ring`) and the normalised statements over C for any c with c*c=2 (Mathlib: field_simp / linear_combination) + differential correspondence of to_linear/to_circular/to_stokes/to_intensity and Stokes component access on exactly representable inputs",
    level_text="proved: the formulas evaluated symbolically from the bodies of to_linear/to_circular/to_stokes/to_intensity on every run ARE the model's functions (C13_source_formulas, robust to algebraically equal rewrites); power preservation, both round trips = identity, Stokes definitions, basis independence of all four Stokes parameters, I^2=Q^2+U^2+V^2, I>=0, I = summed intensity, component access by the generated name table; tied: every sample of the real conversions compared with the exact model (times 1/sqrt 2) for both starting bases, both widths, NumPy and Dask, with pol_type/class/labels",
    level_note="Trusted: Lean kernel + Mathlib (3 std axioms); hand model PbModel/Pol.lean tied by correspondence; float evaluation of the 2x2 maps validated at 8 ulp of the dtype (inputs are small dyadic rationals, so Stokes products are exact in float64)",
)


class Prop(PropBase):
    id = "C13"
    lean_targets = ["PbProps.C13"]
    theorems = ["Pb.C13." + t for t in ("C13_unitary_model", "C13_inverse_model", "C13_basis_independent_model",
                                        "C13_stokes_model", "C13_component_index", "C13_inverse", "C13_unitary",
                                        "C13_basis_independent", "C13_polarised", "C13_source_formulas")]
    trusted_base = ["pbverif/extract.py: symbolic evaluation of the method bodies into PbModel/Gen/Pol.lean (trusted to render the source expressions faithfully; tied to the hand model by the C13_source_* theorem)", "PbModel/Pol.lean (hand model); Gen/Classes.lean stokes ids (translator)"]
    assumptions = []
    rule = ("DualPolarizationSignal with 1-3 channels, optional trailing dims, 2-6 samples whose components are random dyadic "
            "rationals k/8, |k|<=64 (incl. zeros and pure real/imaginary), both pol_types, complex64/128, NumPy/Dask; every sample "
            "pair is one model evaluation. Non-trivial: both components non-zero; distinct by the sample pair.")
    explanation = "polarisation algebra proved in Lean; every converted sample compared with the exact model"

    def __init__(self):
        import pulsarbat as pb
        import numpy as np
        import astropy.units as u

        self.pb, self.np, self.u = pb, np, u

    def cases(self, rng, tier):
        quick = tier == "quick"
        for i_case in range(120 if quick else 4000):
            # trailing sample axes after the polarisation axis: none, one, or several (beams, bits, ...)
            n, L, extra = rng.choice([1, 2, 3]), rng.choice([2, 3, 6]), rng.choice([0, 0, 2, [2, 3], [3, 2], [2, 1, 3]])
            if i_case % 60 == 59:
                n, L, extra = rng.choice([32, 65]), rng.choice([64, 129]), 0        # many channels, longer records
            ext = tuple(extra) if isinstance(extra, list) else ((extra,) if extra else ())
            cnt = L * n * 2
            for e_ in ext:
                cnt *= e_
            def comp():
                r = rng.random()
                if r < 0.1:
                    return 0
                return rng.randint(-64, 64)
            vals = [[comp(), comp()] for _ in range(cnt)]
            yield {"op": "pol", "n": n, "L": L, "extra": extra, "vals": vals, "pol": rng.choice(["linear", "circular"]),
                   "dtype": rng.choice(["c8", "c16"]), "dask": rng.random() < 0.2}

    def run_code(self, case):
        pb, np, u = self.pb, self.np, self.u
        ext = tuple(case["extra"]) if isinstance(case["extra"], list) else ((case["extra"],) if case["extra"] else ())
        shape = (case["L"], case["n"], 2) + ext
        v = np.array([complex(a / 8.0, b / 8.0) for a, b in case["vals"]]).reshape(shape)
        # amplitude scale: a power of two (exact), from unit-scale samples down to very weak ones — the conversions are linear,
        # the Stokes parameters quadratic, so the results are compared after dividing the scale out again (exactly)
        sc = 2.0 ** -[0, 0, 30, 55][(case["L"] + case["n"] + len(case["vals"])) % 4]
        v = (v * sc).astype({"c8": "c8", "c16": "c16"}[case["dtype"]])
        data = v
        if case["dask"]:
            import dask.array as da
            data = da.from_array(v, chunks=(-1, 1, 2) + (1,) * len(ext))
        z = sigs.make(pb, "DualPolarizationSignal", case["L"], 1 * u.MHz, sigs.T0S[0], nchan=case["n"], data=data,
                      pol_type=case["pol"], center_freq=400 * u.MHz, freq_align="top", meta={"a": 1})
        if (case["L"] + case["n"]) % 3 == 0:
            for bad_pol in ("Circular", "LIN", None):          # refused values: the object must stay what it was
                try:
                    z.pol_type = bad_pol
                except ValueError:
                    pass
        try:
            lin, circ, st, inten = z.to_linear(), z.to_circular(), z.to_stokes(), z.to_intensity()
            comps = [st[k] for k in "IQUV"] + [st.stokesI, st.stokesQ, st.stokesU, st.stokesV]
            keyerr = True
            # every string that is not one of the four names is refused (substrings, lower case, several names, empty)
            for bad in ("X", "", "IQ", "QU", "UV", "IQUV", "i", "q", "II", "VI", " I", "I ", "Stokes I", "0"):
                try:
                    st[bad]
                    keyerr = False
                except KeyError:
                    pass
        except Exception as e:
            return {"err": err_name(e)}

        def meta_ok(y, cls, pol=None):
            return bool(type(y).__name__ == cls and y.sample_rate == z.sample_rate and bool(y.start_time == z.start_time)
                        and np.array_equal(y.channel_freqs.value, z.channel_freqs.value) and y.freq_align == z.freq_align
                        and y.meta == z.meta and (pol is None or y.pol_type == pol)
                        and (type(y.data).__module__.startswith("dask")) == case["dask"])
        A = np.asarray(z.data)[:, :, 0].reshape(-1)
        B = np.asarray(z.data)[:, :, 1].reshape(-1)
        stv = np.asarray(st.data)
        out = {
            "meta": [meta_ok(lin, "DualPolarizationSignal", "linear"), meta_ok(circ, "DualPolarizationSignal", "circular"),
                     meta_ok(st, "FullStokesSignal"), meta_ok(inten, "IntensitySignal")] + [meta_ok(c, "IntensitySignal") for c in comps],
            "keyerr": keyerr,
            "shapes": [list(lin.shape), list(circ.shape), list(st.shape), list(inten.shape)],
            "st_dtype": str(st.dtype), "in_shape": list(z.shape),
            "lin": [[complex(a).real, complex(a).imag] for a in np.asarray(lin.data).astype(complex)[:, :, 0].reshape(-1) / sc],
            "lin2": [[complex(a).real, complex(a).imag] for a in np.asarray(lin.data).astype(complex)[:, :, 1].reshape(-1) / sc],
            "circ": [[complex(a).real, complex(a).imag] for a in np.asarray(circ.data).astype(complex)[:, :, 0].reshape(-1) / sc],
            "circ2": [[complex(a).real, complex(a).imag] for a in np.asarray(circ.data).astype(complex)[:, :, 1].reshape(-1) / sc],
            "stokes": [[float(x) / sc / sc for x in stv[:, :, k].reshape(-1).astype(float)] for k in range(4)],
            "inten": [[float(x) / sc / sc for x in np.asarray(inten.data)[:, :, k].reshape(-1).astype(float)] for k in range(2)],
            "comps_ok": bool(all(np.array_equal(np.asarray(comps[k].data), stv[:, :, k]) and
                                 np.array_equal(np.asarray(comps[4 + k].data), stv[:, :, k]) for k in range(4))),
            "A": [[complex(a).real, complex(a).imag] for a in A.astype(complex) / sc],
            "B": [[complex(a).real, complex(a).imag] for a in B.astype(complex) / sc],
        }
        if case["dask"]:
            # all conversions of one Dask-backed signal evaluated in ONE graph equal the results computed alone
            try:
                import dask
                alone = [np.asarray(x.data) for x in (lin, circ, st, inten)]
                joint = dask.compute(lin.data, circ.data, st.data, inten.data, scheduler="synchronous")
                out["joint_same"] = bool(all(np.array_equal(a, b) for a, b in zip(alone, joint)))
                # ... and a second, different signal of the same shape converted the same way in the same graph
                zb = type(z).like(z, data * (0.5 + 0.25j) + 1)
                convs = [s_.to_linear() for s_ in (z, zb)] + [s_.to_circular() for s_ in (z, zb)] + [s_.to_stokes() for s_ in (z, zb)]
                alone2 = [np.asarray(x.data.compute(scheduler="synchronous")) for x in convs]
                joint2 = dask.compute(*[x.data for x in convs], scheduler="synchronous")
                out["joint_same"] = out["joint_same"] and bool(all(np.array_equal(a, b) for a, b in zip(alone2, joint2))) \
                    and not np.array_equal(alone2[0], alone2[1])
            except Exception as e:  # noqa
                out["hist_err"] = err_name(e)
        # the conversions are functions of the CURRENT samples and basis label: repeat them on the same object after an
        # in-place change (exact: scaling by 2) and after relabelling the basis, and compare with a fresh object
        try:
            if not case["dask"]:
                z2 = type(z).like(z, np.array(np.asarray(z.data), copy=True))
                first = np.asarray(z2.to_stokes().data).copy()
                np.multiply(z2, 2, out=z2)
                again = np.asarray(z2.to_stokes().data)
                out["hist_scale_ok"] = bool(np.array_equal(again, 4 * first))
                other = "circular" if z2.pol_type == "linear" else "linear"
                fresh = type(z2).like(z2, np.array(np.asarray(z2.data), copy=True), pol_type=other)
                z2.pol_type = other
                out["hist_label_ok"] = bool(np.array_equal(np.asarray(z2.to_stokes().data), np.asarray(fresh.to_stokes().data))
                                            and np.array_equal(np.asarray(z2.to_linear().data), np.asarray(fresh.to_linear().data))
                                            and np.array_equal(np.asarray(z2.to_intensity().data), np.asarray(fresh.to_intensity().data)))
        except Exception as e:  # noqa
            out["hist_err"] = err_name(e)
        return out

    def model_requests(self, case, code):
        if "err" in code:
            return []
        return [f"c13 pol {X.rat(X.frac(a[0]))} {X.rat(X.frac(a[1]))} {X.rat(X.frac(b[0]))} {X.rat(X.frac(b[1]))}"
                for a, b in zip(code["A"], code["B"])] + ["c13 get I", "c13 get Q", "c13 get U", "c13 get V", "c13 get X"]

    def model_result(self, case, replies):
        rows = [[float(F(t)) for t in r.split()] for r in replies[:-5]]
        return {"rows": rows, "get": replies[-5:]}

    def _cmp(self, case, code, rows):
        """compare every sample with the model rows; returns None or a description"""
        eps = 2.0 ** -23 if case["dtype"] == "c8" else 2.0 ** -52
        s2 = math.sqrt(2.0)
        pol = case["pol"]
        for i, r in enumerate(rows):
            cu, lu, sl, sc, ia, ib = r[0:4], r[4:8], r[8:12], r[12:16], r[16], r[17]
            mag = max(1.0, abs(code["A"][i][0]) + abs(code["A"][i][1]) + abs(code["B"][i][0]) + abs(code["B"][i][1]))
            tol = 16 * eps * mag
            A, B = code["A"][i], code["B"][i]
            want_circ = [cu[0] / s2, cu[1] / s2, cu[2] / s2, cu[3] / s2] if pol == "linear" else [A[0], A[1], B[0], B[1]]
            want_lin = [lu[0] / s2, lu[1] / s2, lu[2] / s2, lu[3] / s2] if pol == "circular" else [A[0], A[1], B[0], B[1]]
            got_circ = code["circ"][i] + code["circ2"][i]
            got_lin = code["lin"][i] + code["lin2"][i]
            for g, w, nm in ((got_circ, want_circ, "to_circular"), (got_lin, want_lin, "to_linear")):
                if any(abs(x - y) > tol for x, y in zip(g, w)):
                    return f"sample {i}: {nm} gives {g}, expected {w}"
            want_st = sl if pol == "linear" else sc
            got_st = [code["stokes"][k][i] for k in range(4)]
            if any(abs(x - y) > 16 * eps * mag * mag for x, y in zip(got_st, want_st)):
                return f"sample {i}: Stokes {got_st}, expected {want_st} ({pol})"
            if abs(code["inten"][0][i] - ia) > 16 * eps * mag * mag or abs(code["inten"][1][i] - ib) > 16 * eps * mag * mag:
                return f"sample {i}: to_intensity wrong"
        return None

    def agree(self, case, code, model):
        if "err" in code:
            return False
        if model["get"] != ["0", "1", "2", "3", "err KeyError"]:
            return False
        return self._cmp(case, code, model["rows"]) is None

    def spec_violation(self, case, code):
        if "err" in code:
            return f"raised {code['err']}"
        if not all(code["meta"]):
            return f"class / pol_type / labels / meta / container wrong on output #{code['meta'].index(False)}"
        if not code["keyerr"] or not code["comps_ok"]:
            return "Stokes component access by name is wrong"
        if code.get("joint_same") is False:
            return "conversions of one Dask-backed signal evaluated in one graph differ from the results computed alone"
        if code.get("hist_scale_ok") is False:
            return "to_stokes() called again after the samples were doubled in place is not 4x the first result (stale result)"
        if code.get("hist_label_ok") is False:
            return "conversions after relabelling pol_type differ from the same conversions on a fresh signal with that label"
        sh = code["in_shape"]
        if code["shapes"] != [sh, sh, sh[:2] + [4] + sh[3:], sh]:
            return f"output shapes {code['shapes']}"
        # independent float64 evaluation of the documented formulas
        rows = []
        s2 = math.sqrt(2.0)
        for A, B in zip(code["A"], code["B"]):
            a, b = complex(*A), complex(*B)
            L, R = a - 1j * b, a + 1j * b
            Xl, Yl = a + b, 1j * (a - b)
            sl = [abs(a) ** 2 + abs(b) ** 2, abs(a) ** 2 - abs(b) ** 2, 2 * (a.conjugate() * b).real, 2 * (a.conjugate() * b).imag]
            sc = [abs(a) ** 2 + abs(b) ** 2, 2 * (a.conjugate() * b).real, 2 * (a.conjugate() * b).imag, abs(a) ** 2 - abs(b) ** 2]
            rows.append([L.real, L.imag, R.real, R.imag, Xl.real, Xl.imag, Yl.real, Yl.imag] + sl + sc + [abs(a) ** 2, abs(b) ** 2])
        why = self._cmp(case, code, rows)
        if why:
            return why
        eps = 2.0 ** -20 if case["dtype"] == "c8" else 2.0 ** -48
        for i in range(len(code["A"])):
            I, Q, U, V = (code["stokes"][k][i] for k in range(4))
            if I < 0 or abs(I * I - (Q * Q + U * U + V * V)) > eps * max(1.0, I * I) * 64:
                return f"sample {i}: I^2 != Q^2+U^2+V^2 or I < 0"
            if abs(I - (code["inten"][0][i] + code["inten"][1][i])) > eps * max(1.0, I) * 64:
                return f"sample {i}: I != summed intensity"
        return None

    def nontrivial_key(self, case, code):
        return case

    def tags(self, case, code):
        return ["pol:" + case["pol"], case["dtype"], "dask" if case["dask"] else "numpy"]
