"""C09 — Dask-backed signals give identical results, lazily, for any chunks or scheduler."""

import contextlib

import itertools
import math

from .base import PropBase
from .. import sigs
from .. import invariant

MANIFEST = dict(
    technique="Lean 4 proof about an abstract dataflow model (container logic of every operation; block-wise application of column-wise functions equals whole-array application for every partition; every schedule of a topologically numbered pure task graph stores the single-threaded values) + differential correspondence: every public transform / method on NumPy- vs Dask-backed signals under chunk layouts of the sample axes (and the time axis where the operation accepts it) and the synchronous / threaded / multiprocess schedulers, laziness by a materialisation counter on sentinel inputs, container results against the model, and observed Dask task-completion orders of random integer task graphs replayed in the model",
    level_text="proved: result is Dask-backed iff an input is, compute/persist/to_dask_array/rechunk change only the backing; block-wise = whole for every column partition (incl. 2-level grids); every sequence of task completions (any interleaving, repeats, premature attempts) yields the single-threaded value of each computed task and the in-order schedule completes; tied: 14 operation families x 6 signal classes x chunk layouts x 3 schedulers compared with the NumPy result (type, metadata, shape, dtype, values), 0 materialisations before compute, real Dask schedules replayed in the model",
    level_note="PARTIAL, the weakest claim of the set: Dask's graph construction, rechunking and schedulers are runtime behaviour outside the model; they are validated by bounded differential runs, not proved. The theorems explain why chunks and scheduler cannot matter given purity (C14) and that the container logic is right. Trusted: Lean kernel + Mathlib, hand model PbModel/Dask.lean, Dask itself",
)

CHUNKABLE_TIME = {"ufunc_abs", "ufunc_scale", "ufunc_add", "slice_time", "slice_chan", "to_intensity", "to_stokes", "to_linear_circular",
                  "incoherent", "concat0", "concat1", "container", "signal_transform"}


def _elementwise(x, k=2.0):
    """an array function for pb.signal_transform (element-wise, so any chunking is acceptable)"""
    return x * k + 1


def _to_complex(x, k=2.0):
    """element-wise, output dtype differs from the input dtype (real -> complex)"""
    return x * k + 1j * x


def _widen(x, k=2.0):
    """element-wise, float32 -> float64"""
    return (x * k).astype("f8")


class _Counting:
    """array-like whose element access is counted (materialisation sentinel)"""

    def __init__(self, arr, counter):
        self.arr, self.counter = arr, counter
        self.shape, self.dtype, self.ndim = arr.shape, arr.dtype, arr.ndim

    def __getitem__(self, ix):
        self.counter[0] += 1
        return self.arr[ix]

    def __len__(self):
        return self.shape[0]


def _partitions(n, rng, k):
    """k random compositions of n (chunk sizes along one axis), always including (n,)"""
    out = [(n,)]
    if n >= 2:
        out.append(tuple([1] * n))
        out.append((1, n - 1))
        for _ in range(k):
            cuts = sorted(rng.sample(range(1, n), rng.randint(1, min(2, n - 1))))
            out.append(tuple(b - a for a, b in zip([0] + cuts, cuts + [n])))
    return out


class Prop(PropBase):
    id = "C09"
    lean_targets = ["PbProps.C09"]
    theorems = ["Pb.C09." + t for t in ("C09_container", "C09_blockwise", "C09_blockwise_grid", "C09_schedule_confluence", "C09_source_sites")]
    trusted_base = ["PbModel/Dask.lean (hand model)", "dask (graph construction, rechunk, schedulers: exercised, not modelled)"]
    assumptions = ["FFT-based operations are given inputs that are not chunked along the time axis (the property's own restriction)",
                   "values compared bitwise, falling back to 4 ulp of the largest magnitude for FFT-based results"]
    rule = ("operations: time_shift (scalar / per-channel, crop), freq_shift, coherent and incoherent dedispersion, concatenate (time and "
            "channel axis), snippet, fast_len, slicing (time, channel), ufuncs (abs, scale, add), to_intensity, to_linear/to_circular, "
            "to_stokes, stft/istft, pb.fft on raw arrays, container methods; classes Signal..DualPolarizationSignal with shapes up to "
            "(N,4,2,3); chunk layouts: every axis split at random points, single-element chunks, time axis split where allowed; "
            "schedulers synchronous, threads (8), processes (2, thorough tier and one sample in quick). Non-trivial: every case.")
    explanation = "dataflow independence proved in Lean; real Dask compared with NumPy per op, chunk layout and scheduler"

    def __init__(self):
        import numpy as np
        import astropy.units as u
        import dask
        import dask.array as da
        import pulsarbat as pb

        self.np, self.u, self.dask, self.da, self.pb = np, u, dask, da, pb

    # ------------------------------------------------------------------ generation
    OPS = {
        "time_shift": ["Signal", "RadioSignal", "IntensitySignal", "BasebandSignal", "DualPolarizationSignal", "FullStokesSignal"],
        "time_shift_arr": ["BasebandSignal", "DualPolarizationSignal", "IntensitySignal"],
        "freq_shift": ["BasebandSignal", "DualPolarizationSignal"],
        "coherent": ["BasebandSignal", "DualPolarizationSignal"],
        "chirp": ["BasebandSignal", "DualPolarizationSignal"],
        "coherent_chirp": ["BasebandSignal", "DualPolarizationSignal"],
        "incoherent": ["IntensitySignal", "BasebandSignal", "FullStokesSignal", "DualPolarizationSignal"],
        "concat0": sigs.CLASSES, "concat1": ["RadioSignal", "IntensitySignal", "BasebandSignal", "DualPolarizationSignal"],
        "snippet": ["BasebandSignal", "IntensitySignal", "Signal"],
        "fast_len": sigs.CLASSES,
        "slice_time": sigs.CLASSES, "slice_chan": ["RadioSignal", "IntensitySignal", "BasebandSignal", "DualPolarizationSignal", "FullStokesSignal"],
        "ufunc_abs": sigs.CLASSES, "ufunc_scale": sigs.CLASSES, "ufunc_add": sigs.CLASSES,
        "to_intensity": ["BasebandSignal", "DualPolarizationSignal"],
        "to_linear_circular": ["DualPolarizationSignal"], "to_stokes": ["DualPolarizationSignal"],
        "stft": ["BasebandSignal", "DualPolarizationSignal"], "istft": ["BasebandSignal", "DualPolarizationSignal"],
        "rawfft": ["Signal"],
        "signal_transform": sigs.CLASSES + ["Signal", "Signal"],
        "container": sigs.CLASSES,
    }

    def cases(self, rng, tier):
        quick = tier == "quick"
        reps = 2 if quick else 14
        scheds = ["sync", "threads"] if quick else ["sync", "threads", "processes"]
        first_proc = True
        seen_proc = set()
        for op, classes in self.OPS.items():
            for cls in classes:
                for _ in range(reps):
                    N = rng.choice([16, 24, 30, 32, 48])
                    nchan = rng.choice([1, 2, 3, 4])
                    extra = rng.choice([(), (), (2,), (3,), (2, 3)]) if cls in ("Signal", "RadioSignal", "IntensitySignal", "BasebandSignal") else ()
                    if cls == "Signal" and not extra:
                        extra = rng.choice([(), (4,), (4, 2)])
                    if op in ("stft", "istft"):
                        N, extra = rng.choice([32, 48, 64]), ()
                        if op == "istft":
                            nchan = rng.choice([4, 8])
                    shape = (N,) + sigs.sample_shape(cls, nchan, extra)
                    chunks = []
                    for ax, n in enumerate(shape):
                        parts = _partitions(n, rng, 2)
                        if (ax == 0 and op not in CHUNKABLE_TIME) or (ax == 1 and op == "istft"):
                            chunks.append([n])      # the FFT axis of an FFT-based operation is never chunked
                        else:
                            chunks.append(list(rng.choice(parts)))
                    sched = rng.choice(scheds)
                    if quick and op in ("ufunc_scale", "time_shift", "coherent", "stft", "rawfft") and cls in ("BasebandSignal", "Signal") \
                            and op not in seen_proc:
                        # the multiprocess scheduler pickles every task: once per run for an element-wise op and for each
                        # FFT-based family
                        sched = "processes"
                        seen_proc.add(op)
                    c = {"op": op, "cls": cls, "N": N, "nchan": nchan, "extra": list(extra), "chunks": chunks, "sched": sched,
                         "seed": rng.randrange(10**6), "dtype": rng.choice(["f4", "f8"])}
                    c["args"] = self._args(rng, op, c, shape)
                    # a second parameter set for the same operation on the same signal: both results are computed in ONE
                    # dask.compute call (shared graph: colliding task names / tokens would mix them up)
                    a2 = self._args(rng, op, c, shape)
                    if op in ("coherent", "incoherent", "coherent_chirp") and rng.random() < 0.7:
                        a2 = dict(c["args"], dm=rng.choice([d for d in (1e-5, 3e-5, -2e-5, 1e-6, 2e-6) if d != c["args"]["dm"]]))
                    if op == "freq_shift" and a2 == c["args"]:
                        a2 = {"frac": -c["args"]["frac"]}
                    c["args2"] = a2
                    yield c
        # one very long record (quick: freq_shift; thorough: also time_shift; ~1 GB, 20 s each): float32 intermediates stop counting
        # samples exactly beyond 2^24, which no short record can show
        if True:
            for which in (("freq_shift",) if quick else ("freq_shift", "time_shift")):
                yield {"op": "huge", "which": which, "N": 2**24 + 4096, "sched": "sync", "chunks": [[2**24 + 4096]], "cls": "BasebandSignal"}
        # reader calls: read(..., use_dask=True, chunks=...) of real-sample VDIF, complex DADA and a custom reader against the
        # eager read, for chunk layouts that split the time axis and/or the sample axes
        for _ in range(10 if quick else 200):
            kind = rng.choice(["vdif", "vdif", "dada", "custom"])
            total = {"vdif": 20000, "dada": 16000, "custom": 64}[kind]
            n = min(rng.choice([1, 2, 7, 16, 33, 100]), total // 2)
            off = rng.choice([0, 1, 5, rng.randrange(0, total - n)])
            tparts = rng.choice(_partitions(n, rng, 2))
            yield {"op": "reader", "kind": kind, "offset": off, "n": n, "tchunks": list(tparts), "split_samples": rng.random() < 0.5,
                   "entry": rng.choice(["read", "dask_read"]), "default_chunks": rng.random() < 0.2,
                   "sched": rng.choice(scheds), "chunks": [list(tparts)], "N": n}
        # random integer task graphs run by the real schedulers, completion order replayed in the model
        for _ in range(6 if quick else 60):
            n = rng.randint(3, 12)
            deps = [sorted(rng.sample(range(i), rng.randint(0, min(3, i)))) for i in range(n)]
            coefs = [[rng.randint(-3, 3), rng.randint(-9, 9)] for _ in range(n)]
            yield {"op": "graph", "n": n, "deps": deps, "coefs": coefs, "sched": rng.choice(scheds)}

    def _args(self, rng, op, c, shape):
        N = shape[0]
        if op == "time_shift":
            return {"shift": rng.choice([1, -2, 2.5, -0.75, 7.25, N + 3, 0, -N]), "crop": rng.random() < 0.4, "quantity": rng.random() < 0.3}
        if op == "time_shift_arr":
            return {"shifts": [round(rng.uniform(-4, 4), 2) for _ in range(shape[1])], "crop": rng.random() < 0.4}
        if op == "freq_shift":
            return {"frac": rng.choice([0.25, -0.125, 0.5, 0.0625, -0.3, 0.25, -0.3, 1.0, -1.5, 0.0])}      # also wholly out of band, and no shift at all
        if op == "chirp":
            # the chirp itself, also with very large phases (large DM, reference far outside the band or at infinity): the lazy
            # and the eager chirp are the same function of the same numbers — bit for bit
            return {"dm": rng.choice([1e-5, 30.0, 500.0, -3000.0]), "ref": rng.choice(["center", "top", "none", "far", "inf"])}
        if op in ("coherent", "incoherent", "coherent_chirp"):
            return {"dm": rng.choice([1e-5, 3e-5, -2e-5, 1e-6, 0.0]), "ref": rng.choice(["center", "top", "none"])}      # also no dispersion at all
        if op in ("concat0", "concat1"):
            return {"split": rng.randint(1, (shape[0] if op == "concat0" else max(shape[1], 2)) - 1) if (op == "concat0" or shape[1] > 1) else 1}
        if op == "snippet":
            n = rng.randint(1, N // 2)
            return {"t": rng.choice([0, 3, 2.5, 0.25]), "n": n}
        if op == "slice_time":
            return {"a": rng.randint(0, N // 2), "b": rng.randint(N // 2, N), "s": rng.choice([1, 1, 2, 3])}
        if op == "slice_chan":
            a = rng.randint(0, shape[1] - 1)
            return {"a": a, "b": rng.randint(a + 1, shape[1])}
        if op in ("stft", "istft"):
            return {"nperseg": rng.choice([4, 8, 16])} if op == "stft" else {"nperseg": c["nchan"]}
        if op == "rawfft":
            return {"fn": rng.choice(["fft", "ifft", "fft2", "fftn", "rfft"]), "axis": rng.randrange(len(shape))}
        if op == "signal_transform":
            return {"k": rng.choice([2.0, -0.5, 3.0]), "fn": rng.choice(["same", "complex", "widen"])}
        if op == "container":
            return {"method": rng.choice(["compute", "persist", "to_dask_array", "rechunk", "rechunk_explicit"]), "empty": rng.random() < 0.25}
        return {}

    # ------------------------------------------------------------------ real code
    def _make(self, c):
        np, u, pb = self.np, self.u, self.pb
        rng = np.random.default_rng(c["seed"])
        shape = (c["N"],) + sigs.sample_shape(c["cls"], c["nchan"], tuple(c["extra"]))
        if sigs.is_complex(c["cls"]):
            data = (rng.standard_normal(shape) + 1j * rng.standard_normal(shape)).astype("c8" if c["dtype"] == "f4" else "c16")
        else:
            data = rng.standard_normal(shape).astype(c["dtype"])
        rate = 1 * u.MHz
        z = sigs.make(pb, c["cls"], c["N"], rate, t0=sigs.T0S[c["seed"] % 3], nchan=c["nchan"], extra=tuple(c["extra"]), data=data, layout="keep",
                      freq_align="bottom" if c["nchan"] % 2 == 0 else "center", center_freq=400 * u.MHz)
        return z

    def _dask_version(self, z, chunks, counter):
        da, np = self.da, self.np
        arr = np.asarray(z.data)
        d = da.from_array(_Counting(arr, counter), chunks=tuple(tuple(x) for x in chunks), meta=np.empty((0,) * arr.ndim, dtype=arr.dtype),
                          asarray=True, name=False)
        return type(z).like(z, d)

    def _apply(self, c, z, zd_other=None):
        """the operation on one signal (NumPy- or Dask-backed)"""
        np, u, pb = self.np, self.u, self.pb
        op, a = c["op"], c["args"]
        if op == "time_shift":
            s = a["shift"]
            if a["quantity"]:
                s = (s / z.sample_rate).to(u.us)
            return pb.time_shift(z, s, crop=a["crop"])
        if op == "time_shift_arr":
            return pb.time_shift(z, np.array(a["shifts"]), crop=a["crop"])
        if op == "freq_shift":
            return pb.freq_shift(z, a["frac"] * z.sample_rate)
        if op == "chirp":
            DM = pb.DispersionMeasure(a["dm"])
            ref = {"center": z.center_freq, "top": z.max_freq, "none": None, "far": 2 * z.center_freq, "inf": np.inf * z.center_freq.unit}[a["ref"]]
            ch = DM.chirp_from_signal(z) if ref is None else DM.chirp_from_signal(z, ref_freq=ref)
            return pb.Signal(ch, sample_rate=z.sample_rate, start_time=z.start_time)
        if op in ("coherent", "incoherent", "coherent_chirp"):
            DM = pb.DispersionMeasure(a["dm"])
            ref = {"center": z.center_freq, "top": z.max_freq, "none": None}[a["ref"]]
            if op == "coherent_chirp":
                # the optional pre-computed chirp, lazily built for a Dask-backed signal
                return pb.coherent_dedispersion(z, DM, ref_freq=ref, chirp=DM.chirp_from_signal(z, ref_freq=ref))
            f = pb.coherent_dedispersion if op == "coherent" else pb.incoherent_dedispersion
            return f(z, DM, ref_freq=ref)
        if op == "concat0":
            k = a["split"]
            return pb.concatenate([z[:k], z[k:]], axis=0)
        if op == "concat1":
            k = a["split"]
            if z.shape[1] < 2:
                return pb.concatenate([z], axis=1)
            return pb.concatenate([z[:, :k], z[:, k:]], axis=1)
        if op == "snippet":
            return pb.snippet(z, a["t"], a["n"])
        if op == "fast_len":
            return pb.fast_len(z)
        if op == "slice_time":
            return z[a["a"]:a["b"]:a["s"]]
        if op == "slice_chan":
            return z[:, a["a"]:a["b"]]
        if op == "ufunc_abs":
            return np.abs(z)
        if op == "ufunc_scale":
            return z * 2.5
        if op == "ufunc_add":
            return z + z
        if op == "to_intensity":
            return z.to_intensity()
        if op == "to_linear_circular":
            return z.to_circular().to_linear()
        if op == "to_stokes":
            return z.to_stokes()
        if op == "signal_transform":
            fn = {"same": _elementwise, "complex": _to_complex, "widen": _widen}[a.get("fn", "same")]
            if a.get("fn", "same") != "same" and type(z).__name__ != "Signal":
                fn = _elementwise          # the radio classes constrain the dtype: keep dtype-preserving functions there
            f = pb.signal_transform(fn)
            return f(z, k=a["k"])
        if op == "stft":
            return pb.contrib.stft(z, nperseg=a["nperseg"])
        if op == "istft":
            return pb.contrib.istft(z, nperseg=a["nperseg"])
        raise KeyError(op)

    def _sched(self, name):
        if name == "sync":
            return dict(scheduler="synchronous")
        if name == "threads":
            return dict(scheduler="threads", num_workers=8)
        return dict(scheduler="processes", num_workers=2)

    def _close(self, a, b, fftish):
        np = self.np
        a, b = np.asarray(a), np.asarray(b)
        if a.shape != b.shape or a.dtype != b.dtype:
            return f"shape/dtype {a.shape}/{a.dtype} vs {b.shape}/{b.dtype}"
        if np.array_equal(a, b, equal_nan=True):
            return None
        if not fftish:
            return f"values differ (max {float(np.nanmax(np.abs(a - b))):.3g})"
        scale = float(np.max(np.abs(b))) if b.size else 0.0
        eps = np.finfo(b.real.dtype).eps if b.dtype.kind in "fc" else 0
        if float(np.max(np.abs(a - b))) <= 4 * eps * max(scale, 1e-30):
            return None
        return f"values differ by {float(np.max(np.abs(a - b))):.3g} (> 4 ulp of {scale:.3g})"

    def run_code(self, c):
        np, da, dask = self.np, self.da, self.dask
        if c["op"] == "graph":
            return self._run_graph(c)
        if c["op"] == "reader":
            return self._run_reader(c)
        if c["op"] == "huge":
            return self._run_huge(c)
        z = self._make(c)
        counter = [0]
        zd = self._dask_version(z, c["chunks"], counter)
        out = {"in_dask": isinstance(zd.data, da.Array)}
        if c["op"] == "rawfft":
            a = c["args"]
            fn = getattr(self.pb.fft, a["fn"])
            kw = {} if a["fn"] in ("fft2", "fftn") else {"axis": a["axis"]}
            x = np.asarray(z.data)
            chunks = [list(ch) for ch in c["chunks"]]
            axes = list(range(x.ndim)) if a["fn"] == "fftn" else ([x.ndim - 2, x.ndim - 1] if a["fn"] == "fft2" else [a["axis"]])
            if a["fn"] == "fft2" and x.ndim < 2:
                return {"skip": True}
            for ax in axes:
                chunks[ax] = [x.shape[ax]]
            xd = da.from_array(_Counting(x, counter), chunks=tuple(tuple(t) for t in chunks), meta=np.empty((0,) * x.ndim, dtype=x.dtype), name=False)
            try:
                r_np = fn(x, **kw)
            except Exception as e:
                r_np = e
            try:
                r_d = fn(xd, **kw)
                out["lazy_count"] = counter[0]
                out["res_dask"] = isinstance(r_d, da.Array)
                got = r_d.compute(**self._sched(c["sched"]))
            except Exception as e:
                got = e
            if isinstance(r_np, Exception) or isinstance(got, Exception):
                out["errs"] = [type(r_np).__name__ if isinstance(r_np, Exception) else None, type(got).__name__ if isinstance(got, Exception) else None]
                return out
            out["diff"] = self._close(got, r_np, True)
            out["after_count"] = counter[0]
            return out
        if c["op"] == "container":
            m = c["args"]["method"]
            if c["args"].get("empty"):
                z, zd = z[3:3], zd[3:3]         # the container methods on a signal without samples
            for name, s in (("np", z), ("dask", zd)):
                if m == "rechunk_explicit":
                    r = s.rechunk((-1,) + (1,) * (s.ndim - 1))
                else:
                    r = getattr(s, m)(**(self._sched(c["sched"]) if m in ("compute", "persist") else {}))
                out[name] = {"backing": "d" if isinstance(r.data, da.Array) else "n", "same_attrs": bool(invariant.same_attrs(r, s)),
                             "values": self._close(r.data.compute() if isinstance(r.data, da.Array) else r.data, np.asarray(z.data), False),
                             "type": type(r).__name__}
            out["lazy_count_note"] = counter[0]
            return out
        # ---- generic transform
        try:
            r_np = self._apply(c, z)
        except Exception as e:
            r_np = e
        counter[0] = 0
        try:
            from dask.callbacks import Callback

            class _Tasks(Callback):
                n = 0

                def _pretask(self, key, dsk, state):
                    _Tasks.n += 1

            # every fourth case: a Dask configuration whose automatic chunks are tiny (the user's `array.chunk-size`); helper
            # arrays the library builds must not end up split along an axis it transforms
            cfg = dask.config.set({"array.chunk-size": "256B"}) if c["seed"] % 4 == 1 else contextlib.nullcontext()
            with cfg, _Tasks():
                r_d = self._apply(c, zd)
            out["lazy_tasks"] = _Tasks.n            # tasks of ANY graph executed while the result was being built
            out["lazy_count"] = counter[0]
            out["res_dask"] = isinstance(r_d.data, da.Array)
            out["res_type"] = type(r_d).__name__
        except Exception as e:
            r_d = e
        if isinstance(r_np, Exception) or isinstance(r_d, Exception):
            out["errs"] = [type(r_np).__name__ if isinstance(r_np, Exception) else None,
                           (type(r_d).__name__ + ": " + str(r_d)[:80]) if isinstance(r_d, Exception) else None]
            return out
        try:
            comp = r_d.compute(**self._sched(c["sched"]))
        except Exception as e:
            out["compute_err"] = type(e).__name__ + ": " + str(e)[:100]
            return out
        out["after_count"] = counter[0]
        out["comp_backing"] = "d" if isinstance(comp.data, da.Array) else "n"
        out["np_backing"] = "d" if isinstance(r_np.data, da.Array) else "n"
        out["same_attrs"] = bool(invariant.same_attrs(comp, r_np))
        out["attrs_lazy"] = bool(invariant.same_attrs(r_d, r_np))
        fftish = c["op"] in ("time_shift", "time_shift_arr", "freq_shift", "coherent", "coherent_chirp", "snippet", "stft", "istft")
        out["diff"] = self._close(comp.data, r_np.data, fftish)
        # joint computation with a second parameter set in one graph
        if c.get("args2") and c["args2"] != c["args"]:
            c2 = dict(c, args=c["args2"])
            try:
                r2_np = self._apply(c2, z)
                r2_d = self._apply(c2, zd)
                j1, j2 = dask.compute(r_d.data, r2_d.data, **self._sched(c["sched"]))
                out["joint_diff"] = self._close(j1, r_np.data, fftish) or self._close(j2, r2_np.data, fftish)
                st = da.stack([r_d.data, r2_d.data]) if (r_d.shape == r2_d.shape and r_d.dtype == r2_d.dtype) else None
                if st is not None:
                    both = st.compute(**self._sched(c["sched"]))
                    out["joint_diff"] = out["joint_diff"] or self._close(both[0], r_np.data, fftish) or self._close(both[1], r2_np.data, fftish)
            except Exception as e:  # noqa
                out["joint_err"] = type(e).__name__ + ": " + str(e)[:80]
        # a second scheduler must give the same values as the first (bitwise)
        other = "threads" if c["sched"] != "threads" else "sync"
        comp2 = r_d.compute(**self._sched(other))
        out["sched_diff"] = self._close(comp2.data, comp.data, False)
        return out

    def _run_huge(self, c):
        np, da, pb = self.np, self.da, self.pb
        import astropy.units as u
        N = c["N"]
        g = np.random.default_rng(5)
        x = (g.standard_normal((N, 1), dtype=np.float32) + 1j * g.standard_normal((N, 1), dtype=np.float32)).astype(np.complex64)
        z = pb.BasebandSignal(x, sample_rate=1 * u.MHz, center_freq=1 * u.GHz)
        zd = pb.BasebandSignal(da.from_array(x, chunks=(-1, 1)), sample_rate=1 * u.MHz, center_freq=1 * u.GHz)
        f = (lambda s: pb.freq_shift(s, 12345.678 * u.Hz)) if c["which"] == "freq_shift" else (lambda s: pb.time_shift(s, 1000.25))
        r_np = f(z)
        r_d = f(zd)
        out = {"np_backing": "d" if isinstance(r_np.data, da.Array) else "n", "res_dask": isinstance(r_d.data, da.Array),
               "attrs_lazy": bool(r_d.shape == r_np.shape and r_d.dtype == r_np.dtype)}
        comp = r_d.compute(scheduler="synchronous")
        out["comp_backing"] = "d" if isinstance(comp.data, da.Array) else "n"
        out["same_attrs"] = bool(type(comp) is type(r_np) and comp.shape == r_np.shape and comp.dtype == r_np.dtype
                                 and comp.sample_rate == r_np.sample_rate and comp.center_freq == r_np.center_freq)
        a, b = np.asarray(comp.data), np.asarray(r_np.data)
        tail = slice(2**24 - 8, None)            # the part of the record beyond 2^24 samples, and all of it in chunks
        err = max(float(np.max(np.abs(a[tail] - b[tail]))), float(np.max(np.abs(a[::4099] - b[::4099]))))
        scale = float(np.max(np.abs(b[::4099]))) or 1.0
        out["diff"] = None if err <= 1e-4 * scale else f"values differ by {err:.3g} (scale {scale:.3g}) on a record of {N} samples"
        out["after_count"] = 1
        return out

    def _run_reader(self, c):
        np, da, pb = self.np, self.da, self.pb
        import astropy.units as u
        from astropy.time import Time
        from dask.callbacks import Callback
        from pathlib import Path
        calls = [0]
        if c["kind"] == "custom":
            class R(pb.readers.BaseReader):
                def _read_array(self, offset, n, /, **kwargs):
                    calls[0] += 1
                    k = np.arange(offset, offset + n, dtype=np.float64).reshape((n, 1, 1))
                    return (k + 1000.0 * np.arange(6.0).reshape(3, 2)).astype(self.dtype)
            r = R(shape=(64, 3, 2), dtype=np.float64, signal_type=pb.Signal, sample_rate=1 * u.kHz,
                  start_time=Time("2020-01-01T00:00:00"))
        else:
            import pulsarbat.readers as pbr
            f = Path(self._repo_root()) / "tests" / "data" / ("sample.vdif" if c["kind"] == "vdif" else "sample.dada")
            r = pbr.BasebandReader(f)
            orig = r._read_array

            def counted(offset, n, /, **kw):
                calls[0] += 1
                return orig(offset, n, **kw)
            r._read_array = counted
        out = {"np_backing": "n"}
        try:
            z_np = r.read(c["offset"], c["n"])
        except Exception as e:      # noqa
            return {"skip": True, "why": type(e).__name__ + ": " + str(e)[:80]}
        calls[0] = 0
        kw = {}
        if not c["default_chunks"]:
            ch = [tuple(c["tchunks"])]
            for ax, m in enumerate(r.sample_shape):
                ch.append((1,) * m if c["split_samples"] and ax == 0 else (m,))
            kw["chunks"] = tuple(ch)
        ntasks = [0]

        class Cnt(Callback):
            def _posttask(self, key, result, dsk, state, worker_id):
                ntasks[0] += 1
        with Cnt():
            z_d = r.read(c["offset"], c["n"], use_dask=True, **kw) if c["entry"] == "read" else r.dask_read(c["offset"], c["n"], **kw)
        out["lazy_tasks"], out["lazy_count"] = ntasks[0], calls[0]
        out["res_dask"] = isinstance(z_d.data, da.Array)
        out["attrs_lazy"] = bool(z_d.shape == z_np.shape and z_d.dtype == z_np.dtype)
        if out["res_dask"] and kw:
            out["chunks_honoured"] = bool(tuple(z_d.data.chunks[0]) == tuple(c["tchunks"]))
        elif out["res_dask"]:      # documented default: no chunking along the time axis
            out["chunks_honoured"] = bool(len(z_d.data.chunks[0]) <= 1)
        try:
            comp = z_d.compute(**self._sched(c["sched"]))
        except Exception as e:      # noqa
            out["compute_err"] = type(e).__name__ + ": " + str(e)[:80]
            return out
        out["comp_backing"] = "d" if isinstance(comp.data, da.Array) else "n"
        out["same_attrs"] = bool(type(comp) is type(z_np) and comp.shape == z_np.shape and comp.dtype == z_np.dtype
                                 and comp.sample_rate == z_np.sample_rate and self._same_time(comp.start_time, z_np.start_time)
                                 and all(getattr(comp, a, None) == getattr(z_np, a, None) for a in ("center_freq", "freq_align", "chan_bw")))
        out["diff"] = self._close(comp.data, z_np.data, False)
        other = "threads" if c["sched"] != "threads" else "sync"
        out["sched_diff"] = self._close(z_d.compute(**self._sched(other)).data, comp.data, False)
        out["after_count"] = 1
        return out

    @staticmethod
    def _same_time(a, b):
        return (a is None and b is None) or (a is not None and b is not None and abs((a - b).to_value("s")) < 1e-12)

    def _repo_root(self):
        import os
        return os.environ.get("PBVERIF_REPO", "/repo")

    def _run_graph(self, c):
        dask = self.dask
        from dask.callbacks import Callback
        n, deps, coefs = c["n"], c["deps"], c["coefs"]
        order = []

        def task(i, a, b, *xs):
            return a * sum(xs) + b

        nodes = []
        for i in range(n):
            nodes.append(dask.delayed(task, pure=False)(i, coefs[i][0], coefs[i][1], *[nodes[d] for d in deps[i]], dask_key_name=f"t{i}"))

        class Rec(Callback):
            def _posttask(self, key, result, dsk, state, worker_id):
                if isinstance(key, str) and key.startswith("t"):
                    order.append(int(key[1:]))

        with Rec():
            vals = dask.compute(*nodes, optimize_graph=False, **self._sched(c["sched"]))
        return {"values": [int(v) for v in vals], "order": order}

    # ------------------------------------------------------------------ model
    def model_requests(self, c, code):
        if c["op"] == "graph":
            deps = ";".join(f"{i}:{','.join(map(str, d))}" for i, d in enumerate(c["deps"]))
            coefs = ",".join(f"{a}:{b}" for a, b in c["coefs"])
            order = ",".join(map(str, code.get("order", []))) or "-"
            return [f"c09 run {c['n']} {deps} {coefs} {order}", f"c09 run {c['n']} {deps} {coefs} {','.join(map(str, range(c['n'])))}"]
        if c["op"] == "container":
            m = {"compute": "compute", "persist": "persist", "to_dask_array": "todask", "rechunk": "rechunk", "rechunk_explicit": "rechunk"}[c["args"]["method"]]
            return [f"c09 result {m} n", f"c09 result {m} d"]
        return ["c09 result transform n", "c09 result transform d"]

    def model_result(self, c, replies):
        return {"replies": list(replies)}

    def agree(self, c, code, model):
        r = model["replies"]
        if c["op"] == "graph":
            want = ",".join(map(str, code["values"]))
            return r[0] == want and r[1] == want and sorted(code["order"]) == list(range(c["n"]))
        if code.get("skip") or "errs" in code:
            return "errs" not in code or code["errs"][0] is not None     # both raise: nothing to compare
        if c["op"] == "container":
            return code["np"]["backing"] == r[0] and code["dask"]["backing"] == r[1]
        if c["op"] == "rawfft":
            return code.get("res_dask") is True
        return code.get("np_backing") == r[0] and ("d" if code.get("res_dask") else "n") == r[1]

    # ------------------------------------------------------------------ property oracle
    def spec_violation(self, c, code):
        if c["op"] == "graph":
            # single-threaded meaning, computed independently
            vals = []
            for i in range(c["n"]):
                vals.append(c["coefs"][i][0] * sum(vals[d] for d in c["deps"][i]) + c["coefs"][i][1])
            if code["values"] != vals:
                return f"scheduler {c['sched']} computed {code['values']}, single-threaded values {vals}"
            pos = {t: k for k, t in enumerate(code["order"])}
            for i, ds in enumerate(c["deps"]):
                if any(pos.get(d, -1) > pos.get(i, 10**9) for d in ds):
                    return f"task {i} completed before its dependency ({code['order']})"
            return None
        if code.get("skip"):
            return None
        if "errs" in code:
            e_np, e_d = code["errs"]
            if e_np is None:
                return f"{c['op']} on the Dask-backed signal raised {e_d} while the NumPy-backed call succeeded (chunks {c['chunks']})"
            if e_d is None:
                return f"{c['op']} raised {e_np} for NumPy but not for Dask input"
            return None
        if "compute_err" in code:
            return f"computing the Dask result failed: {code['compute_err']} (chunks {c['chunks']}, scheduler {c['sched']})"
        if c["op"] == "container":
            m = c["args"]["method"]
            for name in ("np", "dask"):
                o = code[name]
                if not o["same_attrs"]:
                    return f"{m} changed type/metadata/shape/dtype of the {name}-backed signal"
                if o["values"]:
                    return f"{m} changed the values: {o['values']}"
            want = {"compute": ("n", "n"), "persist": ("n", "d"), "to_dask_array": ("d", "d"), "rechunk": ("d", "d"), "rechunk_explicit": ("d", "d")}[m]
            if (code["np"]["backing"], code["dask"]["backing"]) != want:
                return f"{m}: backings {(code['np']['backing'], code['dask']['backing'])}, expected {want}"
            return None
        if c["op"] == "rawfft":
            if not code.get("res_dask"):
                return "pb.fft on a Dask array returned an eager array"
            if code.get("lazy_count", 0) != 0:
                return f"building the pb.fft graph materialised the input ({code['lazy_count']} block reads)"
            return code.get("diff") and f"pb.fft.{c['args']['fn']}: {code['diff']} (chunks {c['chunks']})"
        if c["op"] == "huge":
            c = dict(c, op=c["which"] + " on a very long record", args={}, N=c["N"])
        if c["op"] == "reader":
            c = dict(c, cls=c["kind"] + " reader", op=f"{c['entry']}({c['offset']}, {c['n']}, chunks={'default' if c['default_chunks'] else c['tchunks']})")
            # (whether the requested/default chunk layout is honoured is observed, not judged: the property is about values,
            #  types and laziness)
        if not code.get("res_dask"):
            return f"{c['op']} on a Dask-backed {c['cls']} returned an eager result"
        if code.get("lazy_count", 0) != 0:
            return f"building the {c['op']} result materialised the input graph ({code['lazy_count']} block reads before compute)"
        if code.get("lazy_tasks", 0) != 0:
            return f"building the {c['op']} result executed {code['lazy_tasks']} Dask tasks (something was computed before compute())"
        if code["comp_backing"] != "n":
            return "compute() left a Dask array"
        if not code["same_attrs"] or not code["attrs_lazy"]:
            return f"{c['op']}: type/metadata/shape/dtype differ between the Dask and NumPy results (chunks {c['chunks']})"
        if code.get("diff"):
            return f"{c['op']} ({c['cls']}, chunks {c['chunks']}, scheduler {c['sched']}): {code['diff']}"
        if code.get("joint_diff"):
            return (f"{c['op']} with two parameter sets {c['args']} / {c.get('args2')} computed in one Dask graph: {code['joint_diff']} "
                    f"(each computed alone is right)")
        if code.get("sched_diff"):
            return f"{c['op']}: schedulers disagree: {code['sched_diff']}"
        if code.get("after_count", 1) == 0 and c["N"] > 0 and c["op"] not in ("time_shift", "chirp") and c["sched"] != "processes":
            return "computing the result never read the input"
        return None

    def nontrivial_key(self, c, code):
        return c

    def tags(self, c, code):
        t = [c["op"], "sched=" + c["sched"]]
        if "cls" in c:
            t.append(c["cls"])
            t.append("timechunks=%d" % len(c["chunks"][0]))
            t.append("maxchunks=%d" % max(len(x) for x in c["chunks"]))
        if "errs" in code:
            t.append("both-raise" if all(code["errs"]) else "one-raises")
        return t
