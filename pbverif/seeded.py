"""Seeded-defect bookkeeping.

  python -m pbverif.seeded import <worktree> <seed-id> <property>   # verify + store under seeded/<seed-id>/
  python -m pbverif.seeded run [<seed-id> ...]                      # apply each stored patch to /repo, run checks, undo
"""

import json
import os
import shutil
import subprocess
import sys
from pathlib import Path

VERIF = Path(__file__).resolve().parents[1]
SEEDED = VERIF / "seeded"
PY = "/venv/bin/python"


def sh(cmd, cwd=None, env=None, timeout=3000):
    p = subprocess.run(cmd, shell=True, cwd=cwd, env=env, capture_output=True, text=True, timeout=timeout)
    return p.returncode, (p.stdout + p.stderr)


def demo(tree):
    env = dict(os.environ, PYTHONPATH=str(tree))
    rc, out = sh(f"{PY} -W ignore _seed/demo.py", cwd=tree, env=env)
    return rc, out[-600:]


def tests(tree):
    env = dict(os.environ, PYTHONPATH=str(tree))
    rc, out = sh(f"{PY} -m pytest -q -p no:cacheprovider --timeout=900 tests 2>&1 | tail -12", cwd=tree, env=env)
    failed = sorted(l.split()[1] for l in out.splitlines() if l.startswith("FAILED"))
    summary = [l for l in out.splitlines() if " passed" in l or " failed" in l][-1:]
    return failed, (summary[0] if summary else out[-200:])


def do_import(tree, sid, prop):
    tree = Path(tree)
    seed = tree / "_seed"
    assert (seed / "patch.diff").exists() and (seed / "demo.py").exists(), "deliverables missing"
    # regenerate the patch ourselves from the worktree
    rc, patch = sh("git diff -- pulsarbat", cwd=tree)
    assert patch.strip(), "no source change in the worktree"
    rc_changed, out_changed = demo(tree)
    failed_changed, sum_changed = tests(tree)
    sh("git stash -q -- pulsarbat", cwd=tree)
    try:
        rc_clean, out_clean = demo(tree)
        failed_clean, sum_clean = tests(tree)
    finally:
        sh("git stash pop -q", cwd=tree)
    if failed_changed != failed_clean:
        # the repository's suite has load-dependent flakes: confirm a differing set of failures once more before rejecting
        failed_changed, sum_changed = tests(tree)
    ok = rc_changed == 1 and rc_clean == 0 and failed_changed == failed_clean
    d = SEEDED / sid
    d.mkdir(parents=True, exist_ok=True)
    (d / "patch.diff").write_text(patch)
    shutil.copy(seed / "demo.py", d / "demo.py")
    notes = {}
    if (seed / "notes.json").exists():
        try:
            notes = json.loads((seed / "notes.json").read_text())
        except Exception:
            notes = {"raw": (seed / "notes.json").read_text()[:2000]}
    meta = dict(seed_id=sid, property=prop, author="independent sub-agent (given only the property text and a scratch worktree)",
                what_changed=notes.get("what_changed"), needs_to_manifest=notes.get("needs_to_manifest"),
                confirmed=dict(demo_exit_with_change=rc_changed, demo_exit_without_change=rc_clean,
                               tests_with_change=sum_changed, tests_without_change=sum_clean,
                               same_failing_set=failed_changed == failed_clean,
                               how="pbverif/seeded.py import: demo.py and the full pytest suite run in the scratch worktree "
                                   "with the change applied and with it stashed"),
                kept=ok, checks={})
    (d / "meta.json").write_text(json.dumps(meta, indent=1) + "\n")
    print(json.dumps(meta["confirmed"], indent=1))
    print("KEPT" if ok else "REJECTED (not confirmed)")
    return ok


def do_run(ids, tier="quick", worktree=False):
    """`worktree=False` (the reference protocol): `git -C /repo apply <patch>`, run the checks, `git -C /repo checkout -- .`
    straight afterwards.  `worktree=True`: the same in a throw-away worktree of /repo that the check is pointed at with
    PBVERIF_REPO — /repo itself is never touched, so this mode can run next to other work on the unchanged tree."""
    import tempfile
    ids = ids or sorted(p.name for p in SEEDED.iterdir() if (p / "meta.json").exists())
    for sid in ids:
        d = SEEDED / sid
        meta = json.loads((d / "meta.json").read_text())
        if not meta.get("kept"):
            continue
        tree = "/repo"
        if worktree:
            tree = tempfile.mkdtemp(prefix="pbseedrun-")
            os.rmdir(tree)
            rc, out = sh(f"git -C /repo worktree add -q --detach {tree} HEAD")
            if rc != 0:
                print(sid, "cannot create worktree:", out[-300:])
                continue
        rc, out = sh(f"git -C {tree} apply {d / 'patch.diff'}")
        if rc != 0:
            print(sid, "patch does not apply:", out[-300:])
            if worktree:
                sh(f"git -C /repo worktree remove --force {tree}")
            continue
        try:
            props = [meta["property"]] + meta.get("also_check", [])
            for pid in props:
                if not (VERIF / "pbverif" / "props" / f"{pid.lower()}.py").exists():
                    meta["checks"][pid] = "check not built"
                    continue
                env = dict(os.environ, PBVERIF_OUT=str(VERIF / ".work" / "seeded"), PBVERIF_SEARCH_S="30")
                if worktree:
                    env["PBVERIF_REPO"] = tree
                rc, out = sh(f"bin/check {pid} {tier}", cwd=VERIF, env=env)
                line = [l for l in out.splitlines() if l.startswith("VIOLATION")]
                meta["checks"][pid] = dict(rc=rc, line=line[0] if line else out.strip().splitlines()[-1:])
                print(sid, pid, meta["checks"][pid])
        finally:
            if worktree:
                sh(f"git -C /repo worktree remove --force {tree}")
            else:
                sh("git -C /repo checkout -- .")
        (d / "meta.json").write_text(json.dumps(meta, indent=1) + "\n")


if __name__ == "__main__":
    if sys.argv[1] == "import":
        sys.exit(0 if do_import(*sys.argv[2:5]) else 1)
    args = sys.argv[2:]
    wt = "--worktree" in args
    do_run([a for a in args if a != "--worktree"], worktree=wt)
