"""Independent float64 DFT oracles (NumPy's pocketfft in complex128, cross-checked against a
direct O(N^2) evaluation for small N by the C20 check)."""

import numpy as np


def fftfreq(N):
    return np.fft.fftfreq(N, 1.0)


def delay(x, shift):
    """band-limited delay of x (axis 0) by `shift` samples (scalar or array broadcast over sample
    axes), DFT shift theorem with numpy's bin convention; real input -> real part."""
    x = np.asarray(x)
    N = x.shape[0]
    X = np.fft.fft(x.astype(np.complex128), axis=0)
    f = fftfreq(N).reshape((N,) + (1,) * (x.ndim - 1))
    y = np.fft.ifft(X * np.exp(-2j * np.pi * np.asarray(shift, dtype=np.float64) * f), axis=0)
    return y if np.iscomplexobj(x) else y.real


def direct_dft(x, sign=-1):
    """O(N^2) DFT along axis 0 in longdouble"""
    x = np.asarray(x).astype(np.clongdouble)
    N = x.shape[0]
    n = np.arange(N, dtype=np.longdouble)
    W = np.exp(sign * 2j * np.pi * np.outer(n, n).astype(np.longdouble) / N)
    return np.tensordot(W, x, axes=(1, 0))
